(* Raw.v — decoding of harness-written cases.  Cases are written as lists of
   primitive 63-bit integers (parsed natively by coqc, unlike N/Z literals);
   this layer converts them.  Nothing in Model/ or Props/ depends on it. *)
From Coq Require Import List NArith ZArith Uint63.
Import ListNotations.

Definition zi (i : int) : Z := Uint63.to_Z i.
Definition ni (i : int) : N := Z.to_N (Uint63.to_Z i).
Definition nati (i : int) : nat := Z.to_nat (Uint63.to_Z i).
Definition bi (i : int) : bool := negb (Uint63.eqb i 0).
(* signed values are written with an offset of 2^62 *)
Definition szi (i : int) : Z := (Uint63.to_Z i - 4611686018427387904)%Z.

Definition rawcase := (list (list int) * list (list int))%type.

Fixpoint take {A} (n : nat) (l : list A) : list A :=
  match n, l with S n', x :: l' => x :: take n' l' | _, _ => [] end.
Fixpoint drop {A} (n : nat) (l : list A) : list A :=
  match n, l with S n', _ :: l' => drop n' l' | _, _ => l end.

(* insertion sort on N, used to compare multisets *)
Fixpoint ins_sorted (x : N) (l : list N) : list N :=
  match l with [] => [x] | y :: l' => if N.leb x y then x :: l else y :: ins_sorted x l' end.
Definition sortN (l : list N) : list N := fold_right ins_sorted [] l.

(* result of checking one case: 0 = ok; otherwise (code, step) *)
Record verdict := mkV { vcode : N; vstep : N }.
Definition vok := mkV 0 0.

(* run [chk] over all cases, return (number checked, failures as (index, code, step)) *)
Fixpoint check_all_from {C} (chk : C -> verdict) (i : N) (cs : list C) : list (N * N * N) :=
  match cs with
  | [] => []
  | c :: cs' =>
      let v := chk c in
      if N.eqb (vcode v) 0 then check_all_from chk (i + 1) cs'
      else (i, vcode v, vstep v) :: check_all_from chk (i + 1) cs'
  end.
Definition check_all {C} (chk : C -> verdict) (cs : list C) : N * list (N * N * N) :=
  (N.of_nat (length cs), check_all_from chk 0 cs).
