(* SuspCheck.v — correspondence + monitor for the suspicion timer (C06). *)
From Coq Require Import List NArith ZArith Bool Uint63.
Import ListNotations.
From VF Require Import Base Susp Raw.
Local Open Scope Z_scope.

(* cfg: S(k) min max ntab T1..Tk ; op: from dt_ns(absolute time) ; obs: result ; last obs: fired at *)
Definition check_case (cs : list int * (list (list int) * list (list int))) : verdict :=
  match fst cs with
  | kk :: mn :: mx :: nt :: tab =>
      let k := szi kk in let mn := zi mn in let mx := zi mx in
      let tabz := 0 :: map zi (take (nati nt) tab) in
      let T := T_of tabz mn in
      let ops := map (fun v => match v with [f; t] => (ni f, zi t) | _ => (0%N, 0) end) (fst (snd cs)) in
      let obs := snd (snd cs) in
      let results := map (fun v => match v with [r] => bi r | _ => false end) (firstn (length ops) obs) in
      let final := nth (length ops) obs [] in
      let D := match final with [_; at_] => zi at_ | _ => -1 end in
      let firedf := match final with [f; _] => bi f | _ => false end in
      (* ---- monitor on the implementation's trace ---- *)
      let kz := Z.to_nat (Z.max k 0) in
      let tab_ok :=
        (mn <=? mx) &&
        forallb (fun n => (mn <=? T (Z.of_nat n)) && (T (Z.of_nat n) <=? mx)) (seq 1 kz) &&
        forallb (fun n => T (Z.of_nat (S n)) <=? T (Z.of_nat n)) (seq 1 (kz - 1)) &&
        ((k <? 1) || Z.eqb (T k) mn) in
      let accepted := map fst (filter (fun p => snd p) (combine ops results)) in
      let froms := map fst accepted in
      if negb tab_ok then mkV 164 0
      else if negb firedf then mkV 165 0
      else if negb ((mn <=? D) && (D <=? mx)) then mkV 165 1
      else if (Z.of_nat (length accepted) >? Z.max k 0) then mkV 166 0
      else if Nmem 0%N froms then mkV 167 0
      else if negb (list_eqb N.eqb (sortN froms) (sortN (nodup N.eq_dec froms))) then mkV 168 0
      else if (k <? 1) && negb (Z.eqb D mn) then mkV 169 0
      else
        (* ---- model vs implementation ---- *)
        let '(s', bs) := srun T (snew 0%N k mn mx 0) ops in
        if negb (list_eqb Bool.eqb bs results) then mkV 40 0
        else if negb (Z.eqb (sdeadline s') D) then mkV 41 0
        else vok
  | _ => mkV 1 0
  end.
