(* LifeCheck.v — correspondence + monitors for C20. *)
From Coq Require Import List NArith ZArith Bool Uint63.
Import ListNotations.
From VF Require Import Base Lifecycle Raw.

Definition dec_call (v : list int) : option lcall :=
  match v with
  | [c] => let n := ni c in
           if N.eqb n 0 then Some LMembers else if N.eqb n 1 then Some LNumMembers else if N.eqb n 2 then Some LLocalNode
           else if N.eqb n 3 then Some LUpdateNode else if N.eqb n 4 then Some LLeave else if N.eqb n 5 then Some LShutdown
           else if N.eqb n 6 then Some LHealth else if N.eqb n 7 then Some LSendBestEffort else if N.eqb n 8 then Some LSendReliable
           else if N.eqb n 9 then Some LPing else if N.eqb n 10 then Some LJoin else if N.eqb n 11 then Some LAdvance
           else if N.eqb n 12 then Some LReap else if N.eqb n 20 then Some LShutdown else if N.eqb n 21 then Some LLeave
           else if N.eqb n 22 then Some LUpdateNode else if N.eqb n 23 then Some LLeave else if N.eqb n 24 then Some LShutdown else if N.eqb n 25 then Some LUpdateNode else if N.eqb n 26 then Some LLeave
           else if N.eqb n 27 then Some LLeave (* a timeout long enough for the departure to go out *) else if N.eqb n 28 then Some LLeave (* no timeout *) else if N.eqb n 29 then Some LLeave (* while UpdateNode waits *) else None
  | _ => None
  end.
Fixpoint dec_list {A B} (f : A -> option B) (l : list A) : option (list B) :=
  match l with [] => Some [] | x :: l' => match f x, dec_list f l' with Some y, Some ys => Some (y :: ys) | _, _ => None end end.

(* obs per call: [panicked; overran_its_timeout (or never came back); used_network_after_shutdown; Leave returned an error (rows of the
   random sequences only)] ; last obs: [goroutines_left; sends_after_shutdown; dials_after_shutdown; transport_shutdowns_beyond_the_first].
   [leftok]: a Leave has returned nil; from then on Leave is a no-op: it returns nil (505), without waiting (501). *)
Definition is_leave (c : lcall) : bool := match c with LLeave => true | _ => false end.
Fixpoint monitor_from (i : N) (leftok : bool) (cs : list lcall) (obs : list (list int)) : verdict :=
  match cs, obs with
  | _ :: cs', [p; slow; net] :: obs' =>
      if bi p then mkV 500 i else if bi slow then mkV 501 i else if bi net then mkV 502 i else monitor_from (i + 1) leftok cs' obs'
  | c :: cs', [p; slow; net; e] :: obs' =>
      if bi p then mkV 500 i else if bi slow then mkV 501 i else if bi net then mkV 502 i
      else if is_leave c && leftok && bi e then mkV 505 i
      else monitor_from (i + 1) (leftok || (is_leave c && negb (bi e))) cs' obs'
  | _, _ => vok
  end.

Fixpoint compare_from (i : N) (ms : list lres) (obs : list (list int)) : verdict :=
  match ms, obs with
  | m :: ms', [p; _; _] :: obs' | m :: ms', [p; _; _; _] :: obs' => if negb (Bool.eqb (lpanic m) (bi p)) then mkV 70 i else compare_from (i + 1) ms' obs'
  | _, _ => vok
  end.

Definition check_case (cs : list int * (list (list int) * list (list int))) : verdict :=
  match dec_list dec_call (fst (snd cs)) with
  | Some calls =>
      let obs := snd (snd cs) in
      let v := monitor_from 0 false calls obs in
      if negb (N.eqb (vcode v) 0) then v
      else match nth (length calls) obs [] with
           | [gl; sa; da; sc] => if negb (Uint63.eqb gl 0) then mkV 503 0
                             else if negb (Uint63.eqb sa 0) || negb (Uint63.eqb da 0) then mkV 502 0
                             else if negb (Uint63.eqb sc 0) then mkV 504 0
                             else compare_from 0 (snd (lrun true l0 calls)) obs
           | [gl; sa; da] => if negb (Uint63.eqb gl 0) then mkV 503 0
                             else if negb (Uint63.eqb sa 0) || negb (Uint63.eqb da 0) then mkV 502 0
                             else compare_from 0 (snd (lrun true l0 calls)) obs
           | _ => compare_from 0 (snd (lrun true l0 calls)) obs
           end
  | None => mkV 1 0
  end.
