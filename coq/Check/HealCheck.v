(* HealCheck.v — correspondence + monitor for the "heal" family (C05): two real nodes, two real push/pull
   exchanges.  The Exchange model (merge_all: the whole snapshot, entry by entry through Core.step) must
   predict every record of both nodes after each exchange; the statement of C05_two_exchanges_heal is
   evaluated on the implementation's own records. *)
From Coq Require Import List NArith ZArith Bool Uint63.
Import ListNotations.
From VF Require Import Base Core Cluster Exchange Raw.
Local Open Scope Z_scope.

Definition hvsn : list N := [1; 5; 2; 0; 0; 0]%N.
(* DefaultLANConfig: SuspicionMult 4, ProbeInterval 1 s, SuspicionMaxTimeoutMult 6, GossipToTheDeadTime 30 s,
   DeadNodeReclaimTime 0, AwarenessMaxMultiplier 8, no conflict delegate, no allow-list *)
Definition hcfg (n : N) : cfg :=
  mkCfg n n hvsn 0 30000000000 2 4000000000 6 [24000000000; 11381000000; 4000000000] 8 false false [] true.

Definition dec_hop (v : list int) : option (bool * op) :=
  match v with
  | [w; c; a1] => if Uint63.eqb c 11 then Some (bi w, OUpdate (ni a1) 1000000) else None
  | [w; c; a1; a2; a3] =>
      if Uint63.eqb c 2 then Some (bi w, OSuspect (ni a1) (ni a2) (ni a3))
      else if Uint63.eqb c 3 then Some (bi w, ODead (ni a1) (ni a2) (ni a3)) else None
  | [w; c; a1; a2; a3; a4] =>
      if Uint63.eqb c 0 then Some (bi w, OAlive (ni a1) (ni a2) (ni a3) (ni a4) hvsn false) else None
  | _ => None
  end.

Fixpoint dec_hops (l : list (list int)) : option (list (bool * op)) :=
  match l with
  | [] => Some []
  | v :: l' => match dec_hop v, dec_hops l' with Some o, Some os => Some (o :: os) | _, _ => None end
  end.

(* (name, inc, state, addr, meta) *)
Definition hrec := (N * N * N * N * N)%type.
Definition st_code (s : st) : N := match s with Alive => 0 | Suspect => 1 | Dead => 2 | Left => 3 end%N.

Fixpoint dec_hrecs (n : nat) (l : list int) : option (list hrec * list int) :=
  match n with
  | O => Some ([], l)
  | S n' =>
      match l with
      | nm :: inc :: stt :: ad :: me :: rest =>
          match dec_hrecs n' rest with
          | Some (rs, r') => Some ((ni nm, ni inc, ni stt, ni ad, ni me) :: rs, r')
          | None => None
          end
      | _ => None
      end
  end.

(* one observation: x's table, y's table, error flag *)
Definition dec_hobs (v : list int) : option (list hrec * list hrec * bool) :=
  match v with
  | nx :: rest =>
      match dec_hrecs (nati nx) rest with
      | Some (rx, ny :: rest2) =>
          match dec_hrecs (nati ny) rest2 with
          | Some (ry, [e]) => Some (rx, ry, bi e)
          | _ => None
          end
      | _ => None
      end
  | _ => None
  end.

Fixpoint ins_hrec (r : hrec) (l : list hrec) : list hrec :=
  match l with
  | [] => [r]
  | q :: l' => if N.leb (fst (fst (fst (fst r)))) (fst (fst (fst (fst q)))) then r :: l else q :: ins_hrec r l'
  end.
Definition model_recs (s : nstate) : list hrec :=
  fold_right ins_hrec [] (map (fun p => (fst p, rinc (snd p), st_code (rst (snd p)), raddr (snd p), rmeta (snd p))) (recs s)).

Definition hrec_eqb (a b : hrec) : bool :=
  let '(a1, a2, a3, a4, a5) := a in let '(b1, b2, b3, b4, b5) := b in
  N.eqb a1 b1 && N.eqb a2 b2 && N.eqb a3 b3 && N.eqb a4 b4 && N.eqb a5 b5.

Definition find_rec (n : N) (l : list hrec) : option hrec :=
  find (fun r => N.eqb (fst (fst (fst (fst r)))) n) l.

(* the premise of C05_two_exchanges_heal, read off the implementation's records before the exchanges:
   [own] is the table of the node being reported, [other] the table of the node that receives the report *)
Definition heal_premise (n : N) (own other : list hrec) : option (N * N) :=
  match find_rec n own with
  | Some (_, _, s, a, m) =>
      if N.eqb s 0 then
        match find_rec n other with
        | None => Some (a, m)
        | Some (_, _, _, a', _) => if N.eqb a' a then Some (a, m) else None
        end
      else None
  | None => None
  end.

Definition lists_alive (n a m : N) (tbl : list hrec) : bool :=
  match find_rec n tbl with
  | Some (_, _, s, a', m') => N.eqb s 0 && N.eqb a' a && N.eqb m' m
  | None => false
  end.

Definition check_case (cs : list int * (list (list int) * list (list int))) : verdict :=
  match fst cs with
  | [nx; ny; mx; my; _; _] =>
      match dec_hops (fst (snd cs)), map dec_hobs (snd (snd cs)) with
      | Some ops, [Some (x0, y0, _); Some (x1, y1, e1); Some (x2, y2, e2)] =>
          let cx := hcfg (ni nx) in let cy := hcfg (ni ny) in
          let sx := fst (run cx (boot cx (ni mx)) (map snd (filter (fun o => negb (fst o)) ops))) in
          let sy := fst (run cy (boot cy (ni my)) (map snd (filter (fun o => fst o) ops))) in
          (* ---- monitor: the theorem's statement on the implementation's own records ---- *)
          let px := heal_premise (ni nx) x0 y0 in
          let py := heal_premise (ni ny) y0 x0 in
          if e1 || e2 then mkV 58 0
          else if match px with Some (a, m) => negb (lists_alive (ni nx) a m y2) | None => false end then mkV 560 0
          else if match py with Some (a, m) => negb (lists_alive (ni ny) a m x2) | None => false end then mkV 560 1
          else if match px with Some (a, m) => negb (lists_alive (ni nx) a m x2) | None => false end then mkV 561 0
          else if match py with Some (a, m) => negb (lists_alive (ni ny) a m y2) | None => false end then mkV 561 1
          else
            (* ---- model vs implementation ---- *)
            if negb (list_eqb hrec_eqb (model_recs sx) x0 && list_eqb hrec_eqb (model_recs sy) y0) then mkV 59 0
            else
              let '(sx1, sy1) := pushpull cx sx cy sy in
              if negb (list_eqb hrec_eqb (model_recs sx1) x1 && list_eqb hrec_eqb (model_recs sy1) y1) then mkV 60 1
              else
                let '(sx2, sy2) := pushpull cx sx1 cy sy1 in
                if negb (list_eqb hrec_eqb (model_recs sx2) x2 && list_eqb hrec_eqb (model_recs sy2) y2) then mkV 61 2
                else vok
      | _, _ => mkV 1 0
      end
  | _ => mkV 1 0
  end.
